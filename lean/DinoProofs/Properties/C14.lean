import DinoProofs.Lemmas.Comb
import Mathlib.Algebra.Order.Floor.Ring
import Mathlib.Algebra.Order.Field.Basic
import Mathlib.Algebra.Ring.Int.Parity
import Mathlib.Analysis.SpecialFunctions.Trigonometric.Basic
import Mathlib.Tactic.FieldSimp
import Mathlib.Tactic.Positivity

/-!
# C14 — stepping and scan combinators equal their sequential definition: property theorems

All statements are about the executable model `Dino.Comb` (tied to
`dinosaur/time_integration.py` by the correspondence check of `harness/props/C14.py`), for
arbitrary state / carry / input / output types, arbitrary step functions, filters, scan bodies,
arbitrary `(outer, inner, start_with_input)`, arbitrary nesting lists and weight vectors.
`f^[n]` is `n`-fold application (`Nat.iterate`), `scan` the sequential loop.
-/
namespace Dino.C14
open Dino.Comb Dino.Imex

section steps
variable {S Y : Type}

/-! ## T14.2 `step_with_filters` -/

/-- filters are folded left to right over the stepped state, each receiving the pre-step state
 as first argument -/
theorem stepWithFilters_eq_foldl (step : S → S) (filters : List (S → S → S)) (u : S) :
    stepWithFilters step filters u = filters.foldl (fun uNext flt => flt u uNext) (step u) :=
  applyFilters_eq_foldl u filters (step u)

theorem stepWithFilters_nil (step : S → S) : stepWithFilters step [] = step := rfl

/-- appending a filter post-composes it (so the order of application is the list order) -/
theorem stepWithFilters_snoc (step : S → S) (filters : List (S → S → S)) (g : S → S → S) (u : S) :
    stepWithFilters step (filters ++ [g]) u = g u (stepWithFilters step filters u) := by
  simp [stepWithFilters_eq_foldl]

/-- a state fixed by the step and by every filter is fixed by the filtered step -/
theorem stepWithFilters_fixed (step : S → S) (filters : List (S → S → S)) (u : S)
    (hs : step u = u) (hf : ∀ flt ∈ filters, flt u u = u) :
    stepWithFilters step filters u = u := by
  rw [stepWithFilters_eq_foldl, hs]
  induction filters with
  | nil => rfl
  | cons flt rest ih =>
    rw [List.foldl_cons, hf flt (by simp)]
    exact ih (fun g hg => hf g (by simp [hg]))

example : stepWithFilters (fun n : Nat => n + 1) [fun u v => u * v, fun u v => v - u] 3 = 9 := by
  decide

/-! ## T14.3 `repeated` -/

/-- `repeated(fn, steps)` is `steps` applications, including `steps = 0` (identity) and the
 `steps == 1` shortcut -/
theorem repeated_eq_iterate (fn : S → S) (steps : Nat) : repeated fn steps = fn^[steps] :=
  repeated_eq fn steps

example : repeated (fun n : Nat => 2 * n + 1) 3 1 = 15 := by decide

/-! ## T14.1 `trajectory_from_step` -/

theorem trajectory_eq (f : S → S) (outer inner : Nat) (swi : Bool) (post : S → Y) (x : S) :
    trajectoryFromStep f outer inner swi post x
      = (f^[outer * inner] x,
         (List.range outer).map fun k => post (f^[(if swi then k else k + 1) * inner] x)) := by
  have hs : (if inner ≠ 1 then repeated f inner else f) = f^[inner] := by
    split
    · exact repeated_eq f inner
    · next h => simp only [ne_eq, Decidable.not_not] at h; subst h; rfl
  unfold trajectoryFromStep
  simp only [hs]
  have := scan_replicate (f^[inner]) (fun c => post (if swi then c else f^[inner] c)) x outer
  rw [this, ← Function.iterate_mul, Nat.mul_comm]
  congr 1
  apply List.map_congr_left
  intro k _
  cases swi
  · simp only [Bool.false_eq_true, if_false]
    rw [← Function.iterate_mul, ← Function.iterate_add_apply]
    congr 2; ring
  · simp only [if_true]
    rw [← Function.iterate_mul, Nat.mul_comm]

/-- the returned final state is the state after `outer·inner` steps -/
theorem trajectory_final (f : S → S) (outer inner : Nat) (swi : Bool) (post : S → Y) (x : S) :
    (trajectoryFromStep f outer inner swi post x).1 = f^[outer * inner] x := by
  rw [trajectory_eq]

/-- frame `k` is the post-processed state after `k·inner` (`start_with_input`) resp.
 `(k+1)·inner` steps, for every split, including `inner = 0`, the `inner == 1` shortcut and
 `outer = 0` -/
theorem trajectory_frames (f : S → S) (outer inner : Nat) (swi : Bool) (post : S → Y) (x : S) :
    (trajectoryFromStep f outer inner swi post x).2
      = (List.range outer).map fun k => post (f^[(if swi then k else k + 1) * inner] x) := by
  rw [trajectory_eq]

theorem trajectory_length (f : S → S) (outer inner : Nat) (swi : Bool) (post : S → Y) (x : S) :
    (trajectoryFromStep f outer inner swi post x).2.length = outer := by
  rw [trajectory_frames]; simp

/-- the split does not matter: frame `k` of `(outer, inner)` is frame `k·inner` (resp.
 `(k+1)·inner − 1`) of the single-step trajectory of the same total length, and the final
 states agree -/
theorem trajectory_split (f : S → S) (outer inner : Nat) (swi : Bool) (post : S → Y) (x : S)
    (hin : 0 < inner) :
    (trajectoryFromStep f outer inner swi post x).1
        = (trajectoryFromStep f (outer * inner) 1 swi post x).1 ∧
    ∀ k, k < outer →
      (trajectoryFromStep f outer inner swi post x).2[k]?
        = (trajectoryFromStep f (outer * inner) 1 swi post x).2[
            if swi then k * inner else (k + 1) * inner - 1]? ∧
      (trajectoryFromStep f outer inner swi post x).2[k]?
        = some (post (f^[(if swi then k else k + 1) * inner] x)) := by
  refine ⟨by simp [trajectory_final], ?_⟩
  intro k hk
  simp only [trajectory_frames, List.getElem?_map, Nat.mul_one]
  have h1 : k * inner < outer * inner := Nat.mul_lt_mul_of_pos_right hk hin
  have h2 : (k + 1) * inner ≤ outer * inner := Nat.mul_le_mul_right inner hk
  have h3 : 1 ≤ (k + 1) * inner := Nat.mul_pos (Nat.succ_pos k) hin
  cases swi
  · have h4 : (k + 1) * inner - 1 < outer * inner := by omega
    have h5 : (k + 1) * inner - 1 + 1 = (k + 1) * inner := by omega
    have h6 : f^[(k + 1) * inner] x = f^[(k + 1) * inner - 1] (f x) := by
      rw [← Function.iterate_succ_apply, Nat.succ_eq_add_one, h5]
    simp [hk, h4, h6]
  · simp [hk, h1]

/-- without `start_with_input` the last frame is the post-processed final state -/
theorem trajectory_last_frame (f : S → S) (outer inner : Nat) (post : S → Y) (x : S)
    (ho : 0 < outer) :
    (trajectoryFromStep f outer inner false post x).2.getLast?
      = some (post (trajectoryFromStep f outer inner false post x).1) := by
  rw [trajectory_eq]
  obtain ⟨n, rfl⟩ : ∃ n, outer = n + 1 := ⟨outer - 1, by omega⟩
  simp [List.range_succ]

/-- with `start_with_input` the first frame is the post-processed input -/
theorem trajectory_first_frame (f : S → S) (outer inner : Nat) (post : S → Y) (x : S)
    (ho : 0 < outer) :
    (trajectoryFromStep f outer inner true post x).2.head? = some (post x) := by
  rw [trajectory_eq]
  obtain ⟨n, rfl⟩ : ∃ n, outer = n + 1 := ⟨outer - 1, by omega⟩
  simp [List.range_succ_eq_map]

/-- the trajectory of a filtered step: every one of the `outer·inner` steps applies the
 filters, in order, to the stepped state -/
theorem trajectory_with_filters (step : S → S) (filters : List (S → S → S)) (outer inner : Nat)
    (swi : Bool) (post : S → Y) (x : S) :
    trajectoryFromStep (stepWithFilters step filters) outer inner swi post x
      = ((fun u => filters.foldl (fun uNext flt => flt u uNext) (step u))^[outer * inner] x,
         (List.range outer).map fun k =>
           post ((fun u => filters.foldl (fun uNext flt => flt u uNext) (step u))^[
             (if swi then k else k + 1) * inner] x)) := by
  have h : stepWithFilters step filters
      = fun u => filters.foldl (fun uNext flt => flt u uNext) (step u) := by
    funext u; exact stepWithFilters_eq_foldl step filters u
  rw [trajectory_eq, h]

example : trajectoryFromStep (fun n : Nat => n + 1) 3 2 true (fun n => 10 * n) 0
    = (6, [0, 20, 40]) := by decide
example : trajectoryFromStep (fun n : Nat => n + 1) 3 2 false (fun n => 10 * n) 0
    = (6, [20, 40, 60]) := by decide
example : trajectoryFromStep (fun n : Nat => n + 1) 2 0 false (fun n => 10 * n) 5
    = (5, [50, 50]) := by decide

end steps

/-! ## T14.4 `nested_checkpoint_scan` -/
section nested
variable {C X Y : Type}

/-- the recursion on already reshaped input: for a non-empty nesting whose non-innermost
 lengths are positive, and an input of `prod lengths` rows, the result is the flat scan -/
theorem innerNestedScan_eq_scan (f : C → X → C × Y) :
    ∀ (ls : List Nat), ls ≠ [] → (∀ l ∈ ls.dropLast, 0 < l) →
      ∀ (c : C) (xs : List X), xs.length = prod ls →
        innerNestedScan f ls c xs = .ok (scan f c xs)
  | [], h, _, _, _, _ => absurd rfl h
  | [l], _, _, c, xs, hx => by
    have : xs.length = l := by simpa [prod] using hx
    simp [innerNestedScan, this]
  | l :: l' :: ls, _, hpos, c, xs, hx => by
    have ih := innerNestedScan_eq_scan f (l' :: ls) (by simp)
      (fun m hm => hpos m (by rw [List.dropLast_cons_cons]; exact List.mem_cons_of_mem _ hm))
    have hl : 0 < l := hpos l (by rw [List.dropLast_cons_cons]; exact List.mem_cons_self)
    rw [prod_cons] at hx
    have hlen := length_of_mem_chunks (prod (l' :: ls)) l xs hx
    have hE := scanE_eq_ok (fun carry sub => innerNestedScan f (l' :: ls) carry sub)
      (fun c ch => scan f c ch) (chunks (prod (l' :: ls)) l xs)
      (fun ch hch c => ih c ch (hlen ch hch)) c
    unfold innerNestedScan
    rw [hE]
    have hne : (scan (fun c ch => scan f c ch) c (chunks (prod (l' :: ls)) l xs)).2.isEmpty
        = false := by
      rw [List.isEmpty_eq_false_iff, ← List.length_pos_iff]
      simpa using hl
    simp only [hne, Bool.false_eq_true, if_false]
    conv_rhs => rw [← chunks_flatten (prod (l' :: ls)) l xs hx, scan_flatten]

/-- **T14.4** for every admissible nesting (non-empty, positive non-innermost lengths) whose
 product is the length of `xs` (and equals `length` if that is given), the nested checkpointed
 scan returns exactly the final carry and the stacked outputs of the flat scan -/
theorem nestedCheckpointScan_eq_scan (f : C → X → C × Y) (init : C) (xs : List X)
    (length : Option Nat) (ls : List Nat) (hne : ls ≠ []) (hpos : ∀ l ∈ ls.dropLast, 0 < l)
    (hx : xs.length = prod ls) (hlen : ∀ n, length = some n → n = prod ls) :
    nestedCheckpointScan f init xs length ls = .ok (scan f init xs) := by
  have hm : lengthMismatch length ls = false := by
    cases length with
    | none => rfl
    | some n => simp [lengthMismatch, hlen n rfl]
  simp [nestedCheckpointScan, hm, hx, innerNestedScan_eq_scan f ls hne hpos init xs hx]

/-- any two admissible factorisations of the same length give the same result -/
theorem nestedCheckpointScan_factorisations_agree (f : C → X → C × Y) (init : C) (xs : List X)
    (ls ls' : List Nat) (hne : ls ≠ []) (hpos : ∀ l ∈ ls.dropLast, 0 < l)
    (hne' : ls' ≠ []) (hpos' : ∀ l ∈ ls'.dropLast, 0 < l)
    (hx : xs.length = prod ls) (hx' : xs.length = prod ls') :
    nestedCheckpointScan f init xs none ls = nestedCheckpointScan f init xs none ls' := by
  rw [nestedCheckpointScan_eq_scan f init xs none ls hne hpos hx (by simp),
    nestedCheckpointScan_eq_scan f init xs none ls' hne' hpos' hx' (by simp)]

/-- "`nested_checkpoint_scan` reduces to `lax.scan` when `nested_lengths` has a single element" -/
theorem nestedCheckpointScan_single (f : C → X → C × Y) (init : C) (xs : List X) (n : Nat) :
    nestedCheckpointScan f init xs none [n]
      = if xs.length = n then .ok (scan f init xs) else .error .typeError := by
  by_cases h : xs.length = n <;> simp [nestedCheckpointScan, lengthMismatch, prod, innerNestedScan, h]

/-- an inconsistent `length` argument is rejected with `ValueError` -/
theorem nestedCheckpointScan_length_rejected (f : C → X → C × Y) (init : C) (xs : List X)
    (n : Nat) (ls : List Nat) (h : n ≠ prod ls) :
    nestedCheckpointScan f init xs (some n) ls = .error .valueError := by
  simp [nestedCheckpointScan, lengthMismatch, h]

/-- an input whose leading length is not the product of the nesting is rejected (`reshape`) -/
theorem nestedCheckpointScan_mismatch_rejected (f : C → X → C × Y) (init : C) (xs : List X)
    (length : Option Nat) (ls : List Nat) (h : xs.length ≠ prod ls) :
    nestedCheckpointScan f init xs length ls
      = if lengthMismatch length ls then .error .valueError else .error .typeError := by
  simp [nestedCheckpointScan, h]

/-- for a body with at least one output leaf (`innerNestedScan`), a zero in a non-innermost
 position makes the recursion fail (`jnp.concatenate` of an empty sequence), whatever the input;
 general form (any number of output leaves): `innerNestedScanOut_zero_outer` -/
theorem innerNestedScan_zero_outer (f : C → X → C × Y) :
    ∀ (pre post : List Nat), post ≠ [] → ∀ (c : C) (xs : List X),
      innerNestedScan f (pre ++ 0 :: post) c xs = .error .valueError
  | [], [], h, _, _ => absurd rfl h
  | [], l' :: ls, _, c, xs => by
    simp [innerNestedScan, chunks, scanE]
  | p :: pre, post, h, c, xs => by
    have ih := innerNestedScan_zero_outer f pre post h
    obtain ⟨l', ls, hl⟩ : ∃ l' ls, pre ++ 0 :: post = l' :: ls := by
      cases pre with
      | nil => exact ⟨0, post, rfl⟩
      | cons a t => exact ⟨a, t ++ 0 :: post, rfl⟩
    rw [List.cons_append, hl]
    rw [hl] at ih
    cases p with
    | zero => simp [innerNestedScan, chunks, scanE]
    | succ n =>
      unfold innerNestedScan
      rw [chunks, scanE_cons_error _ _ _ _ _ (ih c _)]

/-- the current code rejects nestings with a zero in a non-innermost position (e.g. `[0, 3]` for
 an empty input), although the flat scan of the empty input is well defined -/
theorem nestedCheckpointScan_zero_outer_rejected (f : C → X → C × Y) (init : C) (xs : List X)
    (length : Option Nat) (pre post : List Nat) (hpost : post ≠ [])
    (hm : lengthMismatch length (pre ++ 0 :: post) = false)
    (hx : xs.length = prod (pre ++ 0 :: post)) :
    nestedCheckpointScan f init xs length (pre ++ 0 :: post) = .error .valueError := by
  simp [nestedCheckpointScan, hm, hx, innerNestedScan_zero_outer f pre post hpost]

/-- exact characterisation of the accepted calls for a body with at least one output leaf;
 general form, including bodies returning `None` as output: `nestedCheckpointScanOut_ok_iff` -/
theorem nestedCheckpointScan_ok_iff (f : C → X → C × Y) (init : C) (xs : List X)
    (length : Option Nat) (ls : List Nat) :
    (∃ r, nestedCheckpointScan f init xs length ls = .ok r)
      ↔ (lengthMismatch length ls = false ∧ xs.length = prod ls ∧ ls ≠ []
          ∧ ∀ l ∈ ls.dropLast, 0 < l) := by
  constructor
  · rintro ⟨r, hr⟩
    by_cases hm : lengthMismatch length ls = true
    · simp [nestedCheckpointScan, hm] at hr
    simp only [Bool.not_eq_true] at hm
    by_cases hx : xs.length = prod ls
    swap
    · simp [nestedCheckpointScan, hm, hx] at hr
    refine ⟨hm, hx, ?_, ?_⟩
    · rintro rfl
      simp [nestedCheckpointScan, hm, hx, innerNestedScan] at hr
    · intro l hl
      rcases Nat.eq_zero_or_pos l with rfl | h
      swap
      · exact h
      exfalso
      have hne : ls ≠ [] := by rintro rfl; simp at hl
      obtain ⟨s, t, hst⟩ := List.append_of_mem hl
      have hls : ls = s ++ 0 :: (t ++ [ls.getLast hne]) := by
        conv_lhs => rw [← List.dropLast_concat_getLast hne, hst]
        simp
      rw [hls] at hr hm hx
      rw [nestedCheckpointScan_zero_outer_rejected f init xs length s _ (by simp) hm hx] at hr
      exact absurd hr (by simp)
  · rintro ⟨hm, hx, hne, hpos⟩
    refine ⟨scan f init xs, ?_⟩
    simp [nestedCheckpointScan, hm, hx, innerNestedScan_eq_scan f ls hne hpos init xs hx]

/-! ### pytree inputs -/

/-- the recursion for a pytree of (reshaped) leaves -/
theorem innerNestedScanTree_eq_scan (f : C → List X → C × Y) :
    ∀ (ls : List Nat), ls ≠ [] → (∀ l ∈ ls.dropLast, 0 < l) →
      ∀ (c : C) (leaves : List (List X)), (∀ a ∈ leaves, a.length = prod ls) →
        innerNestedScanTree f ls c leaves = .ok (scan f c (rows (prod ls) leaves))
  | [], h, _, _, _, _ => absurd rfl h
  | [l], _, _, c, leaves, hx => by
    have : ∀ a ∈ leaves, a.length = l := by simpa [prod] using hx
    have hall : (leaves.all fun a => a.length == l) = true := by
      simpa [List.all_eq_true] using this
    simp [innerNestedScanTree, hall, prod]
  | l :: l' :: ls, _, hpos, c, leaves, hx => by
    have ih := innerNestedScanTree_eq_scan f (l' :: ls) (by simp)
      (fun m hm => hpos m (by rw [List.dropLast_cons_cons]; exact List.mem_cons_of_mem _ hm))
    have hl : 0 < l := hpos l (by rw [List.dropLast_cons_cons]; exact List.mem_cons_self)
    simp only [prod_cons l] at hx
    have hlen := length_of_mem_chunksTree (prod (l' :: ls)) l leaves hx
    have hE := scanE_eq_ok (fun carry sub => innerNestedScanTree f (l' :: ls) carry sub)
      (fun c sub => scan f c (rows (prod (l' :: ls)) sub)) (chunksTree (prod (l' :: ls)) l leaves)
      (fun sub hsub c => ih c sub (hlen sub hsub)) c
    unfold innerNestedScanTree
    rw [hE, scan_map (fun c ch => scan f c ch) (rows (prod (l' :: ls)))]
    have hne : (scan (fun c ch => scan f c ch) c
        ((chunksTree (prod (l' :: ls)) l leaves).map (rows (prod (l' :: ls))))).2.isEmpty
        = false := by
      rw [List.isEmpty_eq_false_iff, ← List.length_pos_iff]
      simpa using hl
    simp only [hne, Bool.false_eq_true, if_false]
    conv_rhs => rw [prod_cons l, ← chunksTree_flatten, scan_flatten]

/-- **T14.4, pytree form**: with every leaf of leading length `prod nested_lengths`, the result
 is the flat scan over the pytree (iteration `t` receives the `t`-th row of every leaf;
 `xs = None` is the pytree without leaves) -/
theorem nestedCheckpointScanTree_eq_scan (f : C → List X → C × Y) (init : C)
    (leaves : List (List X)) (length : Option Nat) (ls : List Nat) (hne : ls ≠ [])
    (hpos : ∀ l ∈ ls.dropLast, 0 < l) (hx : ∀ a ∈ leaves, a.length = prod ls)
    (hlen : ∀ n, length = some n → n = prod ls) :
    nestedCheckpointScanTree f init leaves length ls
      = .ok (scan f init (rows (prod ls) leaves)) := by
  have hm : lengthMismatch length ls = false := by
    cases length with
    | none => rfl
    | some n => simp [lengthMismatch, hlen n rfl]
  have hany : (leaves.any fun a => a.length != prod ls) = false := by
    rw [List.any_eq_false]; intro a ha; simp [hx a ha]
  simp [nestedCheckpointScanTree, hm, hany, innerNestedScanTree_eq_scan f ls hne hpos init leaves hx]

/-- a single leaf of the wrong leading length makes `reshape` fail -/
theorem nestedCheckpointScanTree_leaf_rejected (f : C → List X → C × Y) (init : C)
    (leaves : List (List X)) (length : Option Nat) (ls : List Nat)
    (h : ∃ a ∈ leaves, a.length ≠ prod ls) :
    nestedCheckpointScanTree f init leaves length ls
      = if lengthMismatch length ls then .error .valueError else .error .typeError := by
  have hany : (leaves.any fun a => a.length != prod ls) = true := by
    obtain ⟨a, ha, hne⟩ := h
    rw [List.any_eq_true]; exact ⟨a, ha, by simpa using hne⟩
  simp [nestedCheckpointScanTree, hany]

/-- a zero in a non-innermost position is rejected for pytree inputs as well -/
theorem innerNestedScanTree_zero_outer (f : C → List X → C × Y) :
    ∀ (pre post : List Nat), post ≠ [] → ∀ (c : C) (leaves : List (List X)),
      innerNestedScanTree f (pre ++ 0 :: post) c leaves = .error .valueError
  | [], [], h, _, _ => absurd rfl h
  | [], l' :: ls, _, c, leaves => by
    simp [innerNestedScanTree, chunksTree, scanE]
  | p :: pre, post, h, c, leaves => by
    have ih := innerNestedScanTree_zero_outer f pre post h
    obtain ⟨l', ls, hl⟩ : ∃ l' ls, pre ++ 0 :: post = l' :: ls := by
      cases pre with
      | nil => exact ⟨0, post, rfl⟩
      | cons a t => exact ⟨a, t ++ 0 :: post, rfl⟩
    rw [List.cons_append, hl]
    rw [hl] at ih
    cases p with
    | zero => simp [innerNestedScanTree, chunksTree, scanE]
    | succ n =>
      unfold innerNestedScanTree
      rw [chunksTree, scanE_cons_error _ _ _ _ _ (ih c _)]

/-- exact characterisation of the accepted calls, pytree form, for a body with at least one output
 leaf; general form: `nestedCheckpointScanTreeOut_ok_iff` -/
theorem nestedCheckpointScanTree_ok_iff (f : C → List X → C × Y) (init : C)
    (leaves : List (List X)) (length : Option Nat) (ls : List Nat) :
    (∃ r, nestedCheckpointScanTree f init leaves length ls = .ok r)
      ↔ (lengthMismatch length ls = false ∧ (∀ a ∈ leaves, a.length = prod ls) ∧ ls ≠ []
          ∧ ∀ l ∈ ls.dropLast, 0 < l) := by
  constructor
  · rintro ⟨r, hr⟩
    by_cases hm : lengthMismatch length ls = true
    · simp [nestedCheckpointScanTree, hm] at hr
    simp only [Bool.not_eq_true] at hm
    by_cases hx : ∀ a ∈ leaves, a.length = prod ls
    swap
    · push Not at hx
      rw [nestedCheckpointScanTree_leaf_rejected f init leaves length ls hx, hm] at hr
      simp at hr
    have hany : (leaves.any fun a => a.length != prod ls) = false := by
      rw [List.any_eq_false]; intro a ha; simp [hx a ha]
    refine ⟨hm, hx, ?_, ?_⟩
    · rintro rfl
      simp [nestedCheckpointScanTree, hm, hany, innerNestedScanTree] at hr
    · intro l hl
      rcases Nat.eq_zero_or_pos l with rfl | h
      swap
      · exact h
      exfalso
      have hne : ls ≠ [] := by rintro rfl; simp at hl
      obtain ⟨s, t, hst⟩ := List.append_of_mem hl
      have hls : ls = s ++ 0 :: (t ++ [ls.getLast hne]) := by
        conv_lhs => rw [← List.dropLast_concat_getLast hne, hst]
        simp
      rw [hls] at hr hm hany
      simp [nestedCheckpointScanTree, hm, hany,
        innerNestedScanTree_zero_outer f s (t ++ [ls.getLast hne]) (by simp)] at hr
  · rintro ⟨hm, hx, hne, hpos⟩
    refine ⟨scan f init (rows (prod ls) leaves), ?_⟩
    have hany : (leaves.any fun a => a.length != prod ls) = false := by
      rw [List.any_eq_false]; intro a ha; simp [hx a ha]
    simp [nestedCheckpointScanTree, hm, hany,
      innerNestedScanTree_eq_scan f ls hne hpos init leaves hx]

/-- non-vacuity: `[2, 1, 3]`, `[3, 2]`, `[6]` on a running sum with outputs -/
example : nestedCheckpointScan (fun (c : Nat) (x : Nat) => (c + x, c * x)) 1 [1, 2, 3, 4, 5, 6]
    (some 6) [2, 1, 3] = .ok (22, [1, 4, 12, 28, 55, 96]) := by decide
example : nestedCheckpointScan (fun (c : Nat) (x : Nat) => (c + x, c * x)) 1 [1, 2, 3, 4, 5, 6]
    none [3, 2] = .ok (scan (fun (c : Nat) (x : Nat) => (c + x, c * x)) 1 [1, 2, 3, 4, 5, 6]) := by
  decide
example : nestedCheckpointScan (fun (c : Nat) (x : Nat) => (c + x, c * x)) 1 ([] : List Nat)
    none [0, 3] = .error .valueError := by decide
example : nestedCheckpointScan (fun (c : Nat) (x : Nat) => (c + x, c * x)) 1 ([] : List Nat)
    none [3, 0] = .ok (1, []) := by decide
example : nestedCheckpointScan (fun (c : Nat) (x : Nat) => (c + x, c * x)) 1 [7]
    none [] = .error .indexError := by decide
example : nestedCheckpointScanTree (fun (c : Nat) (r : List Nat) => (c + r.sum, r.length)) 0
    [[1, 2, 3, 4], [10, 20, 30, 40]] none [2, 2] = .ok (110, [2, 2, 2, 2]) := by decide
example : nestedCheckpointScanTree (fun (c : Nat) (r : List Nat) => (c + 1, r.length)) 0
    [] (some 4) [2, 2] = .ok (4, [0, 0, 0, 0]) := by decide

/-! ### empty `nested_lengths` -/

/-- `nested_lengths = []` without `length`: `reshape` to the trailing shape needs exactly one row
 (`TypeError` otherwise), then `lengths[0]` raises `IndexError` -/
theorem nestedCheckpointScan_empty_lengths (f : C → X → C × Y) (init : C) (xs : List X) :
    nestedCheckpointScan f init xs none []
      = if xs.length = 1 then .error .indexError else .error .typeError := by
  by_cases h : xs.length = 1 <;> simp [nestedCheckpointScan, lengthMismatch, prod, innerNestedScan, h]

/-- `nested_lengths = []` is never accepted: `ValueError` when `length` is given and is not `1`
 (`math.prod([]) = 1`), otherwise `IndexError` for an input of exactly one row and `TypeError`
 for every other input; the same for every number of output leaves -/
theorem nestedCheckpointScanOut_empty_lengths (nOut : Nat) (f : C → X → C × Y) (init : C)
    (xs : List X) (length : Option Nat) :
    nestedCheckpointScanOut nOut f init xs length []
      = if (∃ n, length = some n ∧ n ≠ 1) then .error .valueError
        else if xs.length = 1 then .error .indexError else .error .typeError := by
  cases length with
  | none =>
    by_cases h : xs.length = 1 <;>
      simp [nestedCheckpointScanOut, lengthMismatch, prod, innerNestedScanOut, h]
  | some n =>
    by_cases hn : n = 1 <;> by_cases h : xs.length = 1 <;>
      simp [nestedCheckpointScanOut, lengthMismatch, prod, innerNestedScanOut, h, hn]

/-- pytree form: `IndexError` when every leaf has exactly one row (in particular `xs = None`),
 `TypeError` as soon as one leaf has not -/
theorem nestedCheckpointScanTreeOut_empty_lengths (nOut : Nat) (f : C → List X → C × Y) (init : C)
    (leaves : List (List X)) (length : Option Nat) :
    nestedCheckpointScanTreeOut nOut f init leaves length []
      = if (∃ n, length = some n ∧ n ≠ 1) then .error .valueError
        else if ∀ a ∈ leaves, a.length = 1 then .error .indexError else .error .typeError := by
  have hany : (leaves.any fun a => a.length != 1) = true ↔ ¬ ∀ a ∈ leaves, a.length = 1 := by
    simp [List.any_eq_true]
  cases length with
  | none =>
    by_cases h : ∀ a ∈ leaves, a.length = 1
    · have : (leaves.any fun a => a.length != 1) = false := by
        rw [← Bool.not_eq_true, hany]; exact not_not.mpr h
      simp [nestedCheckpointScanTreeOut, lengthMismatch, prod, innerNestedScanTreeOut, this]
      exact h
    · have : (leaves.any fun a => a.length != 1) = true := hany.mpr h
      simp [nestedCheckpointScanTreeOut, lengthMismatch, prod, h, this]
  | some n =>
    by_cases hn : n = 1
    · by_cases h : ∀ a ∈ leaves, a.length = 1
      · have : (leaves.any fun a => a.length != 1) = false := by
          rw [← Bool.not_eq_true, hany]; exact not_not.mpr h
        simp [nestedCheckpointScanTreeOut, lengthMismatch, prod, innerNestedScanTreeOut, this, hn]
        exact h
      · have : (leaves.any fun a => a.length != 1) = true := hany.mpr h
        simp [nestedCheckpointScanTreeOut, lengthMismatch, prod, h, this, hn]
    · simp [nestedCheckpointScanTreeOut, lengthMismatch, prod, hn]

/-! ### bodies with any number of output leaves (`None` as output: `nOut = 0`) -/

/-- with at least one output leaf the general recursion is `innerNestedScan` -/
theorem innerNestedScanOut_succ (n : Nat) (f : C → X → C × Y) :
    ∀ (ls : List Nat) (c : C) (xs : List X),
      innerNestedScanOut (n + 1) f ls c xs = innerNestedScan f ls c xs
  | [], _, _ => rfl
  | [l], _, _ => by simp [innerNestedScanOut, innerNestedScan]
  | l :: l' :: ls, c, xs => by
    have ih : (fun carry sub => innerNestedScanOut (n + 1) f (l' :: ls) carry sub)
        = fun carry sub => innerNestedScan f (l' :: ls) carry sub := by
      funext carry sub
      exact innerNestedScanOut_succ n f (l' :: ls) carry sub
    rw [innerNestedScanOut, innerNestedScan, ih]
    generalize scanE (fun carry sub => innerNestedScan f (l' :: ls) carry sub) c
      (chunks (prod (l' :: ls)) l xs) = r
    cases r <;> simp

theorem nestedCheckpointScanOut_succ (n : Nat) (f : C → X → C × Y) (init : C) (xs : List X)
    (length : Option Nat) (ls : List Nat) :
    nestedCheckpointScanOut (n + 1) f init xs length ls = nestedCheckpointScan f init xs length ls := by
  simp [nestedCheckpointScanOut, nestedCheckpointScan, innerNestedScanOut_succ]

/-- the recursion on already reshaped input, any number of output leaves: for a non-empty nesting
 and an input of `prod lengths` rows the result is the flat scan, provided the non-innermost
 lengths are positive **or the body has no output leaf** -/
theorem innerNestedScanOut_eq_scan (nOut : Nat) (f : C → X → C × Y) :
    ∀ (ls : List Nat), ls ≠ [] → (nOut ≠ 0 → ∀ l ∈ ls.dropLast, 0 < l) →
      ∀ (c : C) (xs : List X), xs.length = prod ls →
        innerNestedScanOut nOut f ls c xs = .ok (scan f c xs)
  | [], h, _, _, _, _ => absurd rfl h
  | [l], _, _, c, xs, hx => by
    have : xs.length = l := by simpa [prod] using hx
    simp [innerNestedScanOut, this]
  | l :: l' :: ls, _, hpos, c, xs, hx => by
    have ih := innerNestedScanOut_eq_scan nOut f (l' :: ls) (by simp)
      (fun h0 m hm => hpos h0 m (by rw [List.dropLast_cons_cons]; exact List.mem_cons_of_mem _ hm))
    rw [prod_cons] at hx
    have hlen := length_of_mem_chunks (prod (l' :: ls)) l xs hx
    have hE := scanE_eq_ok (fun carry sub => innerNestedScanOut nOut f (l' :: ls) carry sub)
      (fun c ch => scan f c ch) (chunks (prod (l' :: ls)) l xs)
      (fun ch hch c => ih c ch (hlen ch hch)) c
    unfold innerNestedScanOut
    rw [hE]
    have hne : ¬ (nOut ≠ 0 ∧
        (scan (fun c ch => scan f c ch) c (chunks (prod (l' :: ls)) l xs)).2.isEmpty = true) := by
      rintro ⟨h0, he⟩
      have hl : 0 < l := hpos h0 l (by rw [List.dropLast_cons_cons]; exact List.mem_cons_self)
      rw [List.isEmpty_iff, ← List.length_eq_zero_iff] at he
      simp at he
      omega
    simp only [hne, if_false]
    conv_rhs => rw [← chunks_flatten (prod (l' :: ls)) l xs hx, scan_flatten]

/-- **T14.4, any number of output leaves** -/
theorem nestedCheckpointScanOut_eq_scan (nOut : Nat) (f : C → X → C × Y) (init : C) (xs : List X)
    (length : Option Nat) (ls : List Nat) (hne : ls ≠ [])
    (hpos : nOut ≠ 0 → ∀ l ∈ ls.dropLast, 0 < l)
    (hx : xs.length = prod ls) (hlen : ∀ n, length = some n → n = prod ls) :
    nestedCheckpointScanOut nOut f init xs length ls = .ok (scan f init xs) := by
  have hm : lengthMismatch length ls = false := by
    cases length with
    | none => rfl
    | some n => simp [lengthMismatch, hlen n rfl]
  simp [nestedCheckpointScanOut, hm, hx, innerNestedScanOut_eq_scan nOut f ls hne hpos init xs hx]

/-- a body returning `None` as output: every non-empty nesting of the right product is accepted,
 zeros in any position included (e.g. `[0, 3]` for an empty input gives `(init, None)`) -/
theorem nestedCheckpointScanOut_no_output (f : C → X → C × Y) (init : C) (xs : List X)
    (length : Option Nat) (ls : List Nat) (hne : ls ≠ [])
    (hx : xs.length = prod ls) (hlen : ∀ n, length = some n → n = prod ls) :
    nestedCheckpointScanOut 0 f init xs length ls = .ok (scan f init xs) :=
  nestedCheckpointScanOut_eq_scan 0 f init xs length ls hne (fun h => absurd rfl h) hx hlen

/-- with at least one output leaf, a zero in a non-innermost position makes the recursion fail
 (`jnp.concatenate` of an empty sequence), whatever the input -/
theorem innerNestedScanOut_zero_outer (nOut : Nat) (h0 : nOut ≠ 0) (f : C → X → C × Y)
    (pre post : List Nat) (hpost : post ≠ []) (c : C) (xs : List X) :
    innerNestedScanOut nOut f (pre ++ 0 :: post) c xs = .error .valueError := by
  obtain ⟨n, rfl⟩ : ∃ n, nOut = n + 1 := ⟨nOut - 1, by omega⟩
  rw [innerNestedScanOut_succ]
  exact innerNestedScan_zero_outer f pre post hpost c xs

/-- **exact characterisation of the accepted calls**, for a body with `nOut` output leaves:
 consistent `length`, input of `prod nested_lengths` rows, non-empty nesting and — only when the
 body has an output leaf — positive non-innermost lengths -/
theorem nestedCheckpointScanOut_ok_iff (nOut : Nat) (f : C → X → C × Y) (init : C) (xs : List X)
    (length : Option Nat) (ls : List Nat) :
    (∃ r, nestedCheckpointScanOut nOut f init xs length ls = .ok r)
      ↔ (lengthMismatch length ls = false ∧ xs.length = prod ls ∧ ls ≠ []
          ∧ (nOut ≠ 0 → ∀ l ∈ ls.dropLast, 0 < l)) := by
  cases nOut with
  | succ n =>
    simp only [nestedCheckpointScanOut_succ, nestedCheckpointScan_ok_iff, ne_eq,
      Nat.add_one_ne_zero, not_false_eq_true, forall_const]
  | zero =>
    constructor
    · rintro ⟨r, hr⟩
      by_cases hm : lengthMismatch length ls = true
      · simp [nestedCheckpointScanOut, hm] at hr
      simp only [Bool.not_eq_true] at hm
      by_cases hx : xs.length = prod ls
      swap
      · simp [nestedCheckpointScanOut, hm, hx] at hr
      refine ⟨hm, hx, ?_, fun h => absurd rfl h⟩
      rintro rfl
      simp [nestedCheckpointScanOut, hm, hx, innerNestedScanOut] at hr
    · rintro ⟨hm, hx, hne, _⟩
      refine ⟨scan f init xs, nestedCheckpointScanOut_no_output f init xs length ls hne hx ?_⟩
      intro n hn
      subst hn
      simpa [lengthMismatch] using hm

/-! #### pytree inputs, any number of output leaves -/

theorem innerNestedScanTreeOut_succ (n : Nat) (f : C → List X → C × Y) :
    ∀ (ls : List Nat) (c : C) (leaves : List (List X)),
      innerNestedScanTreeOut (n + 1) f ls c leaves = innerNestedScanTree f ls c leaves
  | [], _, _ => rfl
  | [l], _, _ => by simp [innerNestedScanTreeOut, innerNestedScanTree]
  | l :: l' :: ls, c, leaves => by
    have ih : (fun carry sub => innerNestedScanTreeOut (n + 1) f (l' :: ls) carry sub)
        = fun carry sub => innerNestedScanTree f (l' :: ls) carry sub := by
      funext carry sub
      exact innerNestedScanTreeOut_succ n f (l' :: ls) carry sub
    rw [innerNestedScanTreeOut, innerNestedScanTree, ih]
    generalize scanE (fun carry sub => innerNestedScanTree f (l' :: ls) carry sub) c
      (chunksTree (prod (l' :: ls)) l leaves) = r
    cases r <;> simp

theorem nestedCheckpointScanTreeOut_succ (n : Nat) (f : C → List X → C × Y) (init : C)
    (leaves : List (List X)) (length : Option Nat) (ls : List Nat) :
    nestedCheckpointScanTreeOut (n + 1) f init leaves length ls
      = nestedCheckpointScanTree f init leaves length ls := by
  simp [nestedCheckpointScanTreeOut, nestedCheckpointScanTree, innerNestedScanTreeOut_succ]

theorem innerNestedScanTreeOut_eq_scan (nOut : Nat) (f : C → List X → C × Y) :
    ∀ (ls : List Nat), ls ≠ [] → (nOut ≠ 0 → ∀ l ∈ ls.dropLast, 0 < l) →
      ∀ (c : C) (leaves : List (List X)), (∀ a ∈ leaves, a.length = prod ls) →
        innerNestedScanTreeOut nOut f ls c leaves = .ok (scan f c (rows (prod ls) leaves))
  | [], h, _, _, _, _ => absurd rfl h
  | [l], _, _, c, leaves, hx => by
    have : ∀ a ∈ leaves, a.length = l := by simpa [prod] using hx
    have hall : (leaves.all fun a => a.length == l) = true := by
      simpa [List.all_eq_true] using this
    simp [innerNestedScanTreeOut, hall, prod]
  | l :: l' :: ls, _, hpos, c, leaves, hx => by
    have ih := innerNestedScanTreeOut_eq_scan nOut f (l' :: ls) (by simp)
      (fun h0 m hm => hpos h0 m (by rw [List.dropLast_cons_cons]; exact List.mem_cons_of_mem _ hm))
    simp only [prod_cons l] at hx
    have hlen := length_of_mem_chunksTree (prod (l' :: ls)) l leaves hx
    have hE := scanE_eq_ok (fun carry sub => innerNestedScanTreeOut nOut f (l' :: ls) carry sub)
      (fun c sub => scan f c (rows (prod (l' :: ls)) sub)) (chunksTree (prod (l' :: ls)) l leaves)
      (fun sub hsub c => ih c sub (hlen sub hsub)) c
    unfold innerNestedScanTreeOut
    rw [hE, scan_map (fun c ch => scan f c ch) (rows (prod (l' :: ls)))]
    have hne : ¬ (nOut ≠ 0 ∧ (scan (fun c ch => scan f c ch) c
        ((chunksTree (prod (l' :: ls)) l leaves).map (rows (prod (l' :: ls))))).2.isEmpty = true) := by
      rintro ⟨h0, he⟩
      have hl : 0 < l := hpos h0 l (by rw [List.dropLast_cons_cons]; exact List.mem_cons_self)
      rw [List.isEmpty_iff, ← List.length_eq_zero_iff] at he
      simp at he
      omega
    simp only [hne, if_false]
    conv_rhs => rw [prod_cons l, ← chunksTree_flatten, scan_flatten]

/-- **T14.4, pytree form, any number of output leaves** -/
theorem nestedCheckpointScanTreeOut_eq_scan (nOut : Nat) (f : C → List X → C × Y) (init : C)
    (leaves : List (List X)) (length : Option Nat) (ls : List Nat) (hne : ls ≠ [])
    (hpos : nOut ≠ 0 → ∀ l ∈ ls.dropLast, 0 < l) (hx : ∀ a ∈ leaves, a.length = prod ls)
    (hlen : ∀ n, length = some n → n = prod ls) :
    nestedCheckpointScanTreeOut nOut f init leaves length ls
      = .ok (scan f init (rows (prod ls) leaves)) := by
  have hm : lengthMismatch length ls = false := by
    cases length with
    | none => rfl
    | some n => simp [lengthMismatch, hlen n rfl]
  have hany : (leaves.any fun a => a.length != prod ls) = false := by
    rw [List.any_eq_false]; intro a ha; simp [hx a ha]
  simp [nestedCheckpointScanTreeOut, hm, hany,
    innerNestedScanTreeOut_eq_scan nOut f ls hne hpos init leaves hx]

theorem innerNestedScanTreeOut_zero_outer (nOut : Nat) (h0 : nOut ≠ 0) (f : C → List X → C × Y)
    (pre post : List Nat) (hpost : post ≠ []) (c : C) (leaves : List (List X)) :
    innerNestedScanTreeOut nOut f (pre ++ 0 :: post) c leaves = .error .valueError := by
  obtain ⟨n, rfl⟩ : ∃ n, nOut = n + 1 := ⟨nOut - 1, by omega⟩
  rw [innerNestedScanTreeOut_succ]
  exact innerNestedScanTree_zero_outer f pre post hpost c leaves

/-- exact characterisation of the accepted calls, pytree form, `nOut` output leaves -/
theorem nestedCheckpointScanTreeOut_ok_iff (nOut : Nat) (f : C → List X → C × Y) (init : C)
    (leaves : List (List X)) (length : Option Nat) (ls : List Nat) :
    (∃ r, nestedCheckpointScanTreeOut nOut f init leaves length ls = .ok r)
      ↔ (lengthMismatch length ls = false ∧ (∀ a ∈ leaves, a.length = prod ls) ∧ ls ≠ []
          ∧ (nOut ≠ 0 → ∀ l ∈ ls.dropLast, 0 < l)) := by
  cases nOut with
  | succ n =>
    simp only [nestedCheckpointScanTreeOut_succ, nestedCheckpointScanTree_ok_iff, ne_eq,
      Nat.add_one_ne_zero, not_false_eq_true, forall_const]
  | zero =>
    constructor
    · rintro ⟨r, hr⟩
      by_cases hm : lengthMismatch length ls = true
      · simp [nestedCheckpointScanTreeOut, hm] at hr
      simp only [Bool.not_eq_true] at hm
      by_cases hany : (leaves.any fun a => a.length != prod ls) = true
      · simp [nestedCheckpointScanTreeOut, hm, hany] at hr
      simp only [Bool.not_eq_true] at hany
      have hx : ∀ a ∈ leaves, a.length = prod ls := by
        intro a ha
        have := (List.any_eq_false.mp hany) a ha
        simpa using this
      refine ⟨hm, hx, ?_, fun h => absurd rfl h⟩
      rintro rfl
      simp [nestedCheckpointScanTreeOut, hm, hany, innerNestedScanTreeOut] at hr
    · rintro ⟨hm, hx, hne, _⟩
      refine ⟨scan f init (rows (prod ls) leaves),
        nestedCheckpointScanTreeOut_eq_scan 0 f init leaves length ls hne (fun h => absurd rfl h) hx ?_⟩
      intro n hn
      subst hn
      simpa [lengthMismatch] using hm

/-- non-vacuity, output-less bodies (`Y = Unit`, `nOut = 0`): zero outer length accepted, normal
 lengths, and the same calls with one output leaf -/
example : nestedCheckpointScanOut 0 (fun (c : Nat) (_ : Nat) => (c + 1, ())) 0 ([] : List Nat)
    none [0, 3] = .ok (0, []) := by decide
example : nestedCheckpointScanOut 0 (fun (c : Nat) (_ : Nat) => (c + 1, ())) 0 ([] : List Nat)
    (some 0) [2, 0, 3] = .ok (0, []) := by decide
example : nestedCheckpointScanOut 0 (fun (c : Nat) (x : Nat) => (c + x, ())) 1 [1, 2, 3, 4, 5, 6]
    none [2, 3] = .ok (22, [(), (), (), (), (), ()]) := by decide
example : nestedCheckpointScanOut 1 (fun (c : Nat) (_ : Nat) => (c + 1, c)) 0 ([] : List Nat)
    none [0, 3] = .error .valueError := by decide
example : nestedCheckpointScanOut 2 (fun (c : Nat) (x : Nat) => (c + x, (c, x))) 1 [1, 2, 3, 4]
    none [2, 2] = .ok (11, [(1, 1), (2, 2), (4, 3), (7, 4)]) := by decide
example : nestedCheckpointScanTreeOut 0 (fun (c : Nat) (r : List Nat) => (c + r.length, ())) 5
    [[], []] (some 0) [0, 2] = .ok (5, []) := by decide
example : nestedCheckpointScanTreeOut 0 (fun (c : Nat) (_ : List Nat) => (c + 1, ())) 0
    [] (some 6) [3, 2] = .ok (6, [(), (), (), (), (), ()]) := by decide
/-- the hypotheses of `nestedCheckpointScanOut_ok_iff` on the output-less zero-outer-length call -/
example : ∃ r, nestedCheckpointScanOut 0 (fun (c : Nat) (_ : Nat) => (c + 1, ())) 0 ([] : List Nat)
    none [0, 3] = .ok r :=
  (nestedCheckpointScanOut_ok_iff 0 _ 0 [] none [0, 3]).mpr
    ⟨rfl, rfl, by simp, fun h => absurd rfl h⟩
/-- empty nesting: one row `IndexError`, otherwise `TypeError`, wrong `length` first -/
example : nestedCheckpointScanOut 1 (fun (c : Nat) (x : Nat) => (c + x, c)) 0 [7] (some 1) []
    = .error .indexError := by decide
example : nestedCheckpointScanOut 1 (fun (c : Nat) (x : Nat) => (c + x, c)) 0 [7, 8] none []
    = .error .typeError := by decide
example : nestedCheckpointScanOut 1 (fun (c : Nat) (x : Nat) => (c + x, c)) 0 [7, 8] (some 2) []
    = .error .valueError := by decide
example : nestedCheckpointScanOut 0 (fun (c : Nat) (x : Nat) => (c + x, ())) 0 ([] : List Nat) none []
    = .error .typeError := by decide

/-! ### error kinds of the general forms, agreement of factorisations (review F2, N5, N6) -/

/-- an inconsistent `length` argument is rejected with `ValueError`, any number of output leaves -/
theorem nestedCheckpointScanOut_length_rejected (nOut : Nat) (f : C → X → C × Y) (init : C)
    (xs : List X) (n : Nat) (ls : List Nat) (h : n ≠ prod ls) :
    nestedCheckpointScanOut nOut f init xs (some n) ls = .error .valueError := by
  simp [nestedCheckpointScanOut, lengthMismatch, h]

/-- an input whose leading length is not the product of the nesting is rejected: `ValueError`
 when `length` is inconsistent as well (that test comes first), `TypeError` (`reshape`) otherwise -/
theorem nestedCheckpointScanOut_mismatch_rejected (nOut : Nat) (f : C → X → C × Y) (init : C)
    (xs : List X) (length : Option Nat) (ls : List Nat) (h : xs.length ≠ prod ls) :
    nestedCheckpointScanOut nOut f init xs length ls
      = if lengthMismatch length ls then .error .valueError else .error .typeError := by
  simp [nestedCheckpointScanOut, h]

/-- with an output leaf, a zero in a non-innermost position is rejected with `ValueError` -/
theorem nestedCheckpointScanOut_zero_outer_rejected (nOut : Nat) (h0 : nOut ≠ 0) (f : C → X → C × Y)
    (init : C) (xs : List X) (length : Option Nat) (pre post : List Nat) (hpost : post ≠ [])
    (hm : lengthMismatch length (pre ++ 0 :: post) = false)
    (hx : xs.length = prod (pre ++ 0 :: post)) :
    nestedCheckpointScanOut nOut f init xs length (pre ++ 0 :: post) = .error .valueError := by
  simp [nestedCheckpointScanOut, hm, hx, innerNestedScanOut_zero_outer nOut h0 f pre post hpost]

theorem nestedCheckpointScanTree_length_rejected (f : C → List X → C × Y) (init : C)
    (leaves : List (List X)) (n : Nat) (ls : List Nat) (h : n ≠ prod ls) :
    nestedCheckpointScanTree f init leaves (some n) ls = .error .valueError := by
  simp [nestedCheckpointScanTree, lengthMismatch, h]

theorem nestedCheckpointScanTreeOut_length_rejected (nOut : Nat) (f : C → List X → C × Y) (init : C)
    (leaves : List (List X)) (n : Nat) (ls : List Nat) (h : n ≠ prod ls) :
    nestedCheckpointScanTreeOut nOut f init leaves (some n) ls = .error .valueError := by
  simp [nestedCheckpointScanTreeOut, lengthMismatch, h]

/-- a single leaf of the wrong leading length makes `reshape` fail, any number of output leaves -/
theorem nestedCheckpointScanTreeOut_leaf_rejected (nOut : Nat) (f : C → List X → C × Y) (init : C)
    (leaves : List (List X)) (length : Option Nat) (ls : List Nat)
    (h : ∃ a ∈ leaves, a.length ≠ prod ls) :
    nestedCheckpointScanTreeOut nOut f init leaves length ls
      = if lengthMismatch length ls then .error .valueError else .error .typeError := by
  have hany : (leaves.any fun a => a.length != prod ls) = true := by
    obtain ⟨a, ha, hne⟩ := h
    rw [List.any_eq_true]; exact ⟨a, ha, by simpa using hne⟩
  simp [nestedCheckpointScanTreeOut, hany]

/-- pytree form, at least one output leaf: a zero in a non-innermost position is rejected with
 `ValueError` -/
theorem nestedCheckpointScanTree_zero_outer_rejected (f : C → List X → C × Y) (init : C)
    (leaves : List (List X)) (length : Option Nat) (pre post : List Nat) (hpost : post ≠ [])
    (hm : lengthMismatch length (pre ++ 0 :: post) = false)
    (hx : ∀ a ∈ leaves, a.length = prod (pre ++ 0 :: post)) :
    nestedCheckpointScanTree f init leaves length (pre ++ 0 :: post) = .error .valueError := by
  have hany : (leaves.any fun a => a.length != prod (pre ++ 0 :: post)) = false := by
    rw [List.any_eq_false]; intro a ha; simp [hx a ha]
  simp [nestedCheckpointScanTree, hm, hany, innerNestedScanTree_zero_outer f pre post hpost]

theorem nestedCheckpointScanTreeOut_zero_outer_rejected (nOut : Nat) (h0 : nOut ≠ 0)
    (f : C → List X → C × Y) (init : C) (leaves : List (List X)) (length : Option Nat)
    (pre post : List Nat) (hpost : post ≠ [])
    (hm : lengthMismatch length (pre ++ 0 :: post) = false)
    (hx : ∀ a ∈ leaves, a.length = prod (pre ++ 0 :: post)) :
    nestedCheckpointScanTreeOut nOut f init leaves length (pre ++ 0 :: post) = .error .valueError := by
  have hany : (leaves.any fun a => a.length != prod (pre ++ 0 :: post)) = false := by
    rw [List.any_eq_false]; intro a ha; simp [hx a ha]
  simp [nestedCheckpointScanTreeOut, hm, hany,
    innerNestedScanTreeOut_zero_outer nOut h0 f pre post hpost]

/-- any two admissible factorisations of the same length give the same result, for a body with any
 number of output leaves (without output leaf: any two non-empty nestings of the right product) -/
theorem nestedCheckpointScanOut_factorisations_agree (nOut : Nat) (f : C → X → C × Y) (init : C)
    (xs : List X) (length : Option Nat) (ls ls' : List Nat)
    (hne : ls ≠ []) (hpos : nOut ≠ 0 → ∀ l ∈ ls.dropLast, 0 < l)
    (hne' : ls' ≠ []) (hpos' : nOut ≠ 0 → ∀ l ∈ ls'.dropLast, 0 < l)
    (hx : xs.length = prod ls) (hx' : xs.length = prod ls')
    (hlen : ∀ n, length = some n → n = xs.length) :
    nestedCheckpointScanOut nOut f init xs length ls
      = nestedCheckpointScanOut nOut f init xs length ls' := by
  rw [nestedCheckpointScanOut_eq_scan nOut f init xs length ls hne hpos hx
      (fun n hn => (hlen n hn).trans hx),
    nestedCheckpointScanOut_eq_scan nOut f init xs length ls' hne' hpos' hx'
      (fun n hn => (hlen n hn).trans hx')]

/-- the same for pytree inputs (in particular `xs = None` with `length` given) -/
theorem nestedCheckpointScanTreeOut_factorisations_agree (nOut : Nat) (f : C → List X → C × Y)
    (init : C) (leaves : List (List X)) (length : Option Nat) (ls ls' : List Nat)
    (hne : ls ≠ []) (hpos : nOut ≠ 0 → ∀ l ∈ ls.dropLast, 0 < l)
    (hne' : ls' ≠ []) (hpos' : nOut ≠ 0 → ∀ l ∈ ls'.dropLast, 0 < l)
    (hp : prod ls = prod ls') (hx : ∀ a ∈ leaves, a.length = prod ls)
    (hlen : ∀ n, length = some n → n = prod ls) :
    nestedCheckpointScanTreeOut nOut f init leaves length ls
      = nestedCheckpointScanTreeOut nOut f init leaves length ls' := by
  rw [nestedCheckpointScanTreeOut_eq_scan nOut f init leaves length ls hne hpos hx hlen,
    nestedCheckpointScanTreeOut_eq_scan nOut f init leaves length ls' hne' hpos'
      (fun a ha => (hx a ha).trans hp) (fun n hn => (hlen n hn).trans hp), hp]

/-- the same for the instance "at least one output leaf", pytree inputs -/
theorem nestedCheckpointScanTree_factorisations_agree (f : C → List X → C × Y)
    (init : C) (leaves : List (List X)) (length : Option Nat) (ls ls' : List Nat)
    (hne : ls ≠ []) (hpos : ∀ l ∈ ls.dropLast, 0 < l)
    (hne' : ls' ≠ []) (hpos' : ∀ l ∈ ls'.dropLast, 0 < l)
    (hp : prod ls = prod ls') (hx : ∀ a ∈ leaves, a.length = prod ls)
    (hlen : ∀ n, length = some n → n = prod ls) :
    nestedCheckpointScanTree f init leaves length ls
      = nestedCheckpointScanTree f init leaves length ls' := by
  rw [nestedCheckpointScanTree_eq_scan f init leaves length ls hne hpos hx hlen,
    nestedCheckpointScanTree_eq_scan f init leaves length ls' hne' hpos'
      (fun a ha => (hx a ha).trans hp) (fun n hn => (hlen n hn).trans hp), hp]

example : nestedCheckpointScanOut 2 (fun (c : Nat) (x : Nat) => (c + x, (c, x))) 1 [1, 2, 3, 4, 5, 6]
    (some 6) [2, 3] = nestedCheckpointScanOut 2 (fun (c : Nat) (x : Nat) => (c + x, (c, x))) 1
      [1, 2, 3, 4, 5, 6] (some 6) [3, 1, 2] :=
  nestedCheckpointScanOut_factorisations_agree 2 _ 1 _ (some 6) [2, 3] [3, 1, 2] (by simp)
    (fun _ => by decide) (by simp) (fun _ => by decide) rfl rfl (by simp)
example : nestedCheckpointScanTreeOut 0 (fun (c : Nat) (_ : List Nat) => (c + 1, ())) 0 []
    (some 0) [0, 2] = nestedCheckpointScanTreeOut 0 (fun (c : Nat) (_ : List Nat) => (c + 1, ())) 0 []
      (some 0) [5, 0, 1] :=
  nestedCheckpointScanTreeOut_factorisations_agree 0 _ 0 [] (some 0) [0, 2] [5, 0, 1] (by simp)
    (fun h => absurd rfl h) (by simp) (fun h => absurd rfl h) rfl (by simp) (by simp [prod])
example : nestedCheckpointScanOut 1 (fun (c : Nat) (x : Nat) => (c + x, c)) 0 [1, 2, 3] (some 4) [3]
    = .error .valueError := nestedCheckpointScanOut_length_rejected 1 _ 0 _ 4 [3] (by decide)
example : nestedCheckpointScanTreeOut 0 (fun (c : Nat) (r : List Nat) => (c + r.length, ())) 0
    [[1, 2, 3, 4], [1, 2, 3]] none [2, 2] = .error .typeError := by
  rw [nestedCheckpointScanTreeOut_leaf_rejected 0 _ 0 _ none [2, 2] ⟨[1, 2, 3], by simp, by decide⟩]
  rfl

/-! ### `reshape` compares TOTAL sizes: leaves whose trailing shape has size `0` (review F2, N1)

`nestedCheckpointScan…` above test `xs.length ≠ prod nested_lengths`; the real `reshape` tests
`xs.length * rowSize ≠ prod nested_lengths * rowSize` with `rowSize = prod x.shape[1:]`.  The two
agree **iff the trailing shape has positive size** (`reshapeRejects_of_pos`, hypothesis
`0 < rowSize`); an array of shape `(n, 0)` passes `reshape` for every `n` and is then scanned as
`prod nested_lengths` empty rows (`nestedCheckpointScanSized_zero`).  The `…Sized` model carries
`rowSize` and is the one compared with the real code on such leaves. -/

theorem reshapeRejects_of_pos (rowSize n : Nat) (ls : List Nat) (h : 0 < rowSize) :
    reshapeRejects rowSize n ls = (n != prod ls) := by
  by_cases e : n = prod ls
  · simp [reshapeRejects, e]
  · have hne : n * rowSize ≠ prod ls * rowSize := fun hh => e (Nat.eq_of_mul_eq_mul_right h hh)
    rw [reshapeRejects, bne_iff_ne.mpr hne, bne_iff_ne.mpr e]

theorem reshapeRejects_zero (n : Nat) (ls : List Nat) : reshapeRejects 0 n ls = false := by
  simp [reshapeRejects]

/-- **the statements about `nestedCheckpointScanOut` (and `nestedCheckpointScan`) are statements
 about the real call exactly for arrays whose trailing shape has positive size** -/
theorem nestedCheckpointScanSized_pos (rowSize : Nat) (h : 0 < rowSize) (e : X) (nOut : Nat)
    (f : C → X → C × Y) (init : C) (xs : List X) (length : Option Nat) (ls : List Nat) :
    nestedCheckpointScanSized rowSize e nOut f init xs length ls
      = nestedCheckpointScanOut nOut f init xs length ls := by
  have h' : rowSize ≠ 0 := by omega
  simp [nestedCheckpointScanSized, nestedCheckpointScanOut, reshapeRejects_of_pos _ _ _ h, reshaped, h']

/-- an array whose trailing shape has size `0` behaves, whatever its leading length, as the array of
 `prod nested_lengths` empty rows -/
theorem nestedCheckpointScanSized_zero (e : X) (nOut : Nat) (f : C → X → C × Y) (init : C)
    (xs : List X) (length : Option Nat) (ls : List Nat) :
    nestedCheckpointScanSized 0 e nOut f init xs length ls
      = nestedCheckpointScanOut nOut f init (List.replicate (prod ls) e) length ls := by
  simp [nestedCheckpointScanSized, nestedCheckpointScanOut, reshapeRejects_zero, reshaped]

/-- **exact characterisation of the accepted calls, `reshape` on total sizes**: the leading length
 must be `prod nested_lengths` *when the trailing shape has positive size* (hypothesis `0 < rowSize`
 inside the statement); a leaf of size `0` is accepted with every leading length -/
theorem nestedCheckpointScanSized_ok_iff (rowSize : Nat) (e : X) (nOut : Nat) (f : C → X → C × Y)
    (init : C) (xs : List X) (length : Option Nat) (ls : List Nat) :
    (∃ r, nestedCheckpointScanSized rowSize e nOut f init xs length ls = .ok r)
      ↔ (lengthMismatch length ls = false ∧ (0 < rowSize → xs.length = prod ls) ∧ ls ≠ []
          ∧ (nOut ≠ 0 → ∀ l ∈ ls.dropLast, 0 < l)) := by
  rcases Nat.eq_zero_or_pos rowSize with rfl | h
  · rw [nestedCheckpointScanSized_zero, nestedCheckpointScanOut_ok_iff]
    simp
  · rw [nestedCheckpointScanSized_pos _ h, nestedCheckpointScanOut_ok_iff]
    simp [h]

/-- T14.4 with the real `reshape` test: the result is the flat scan over the reshaped rows -/
theorem nestedCheckpointScanSized_eq_scan (rowSize : Nat) (e : X) (nOut : Nat) (f : C → X → C × Y)
    (init : C) (xs : List X) (length : Option Nat) (ls : List Nat) (hne : ls ≠ [])
    (hpos : nOut ≠ 0 → ∀ l ∈ ls.dropLast, 0 < l) (hx : 0 < rowSize → xs.length = prod ls)
    (hlen : ∀ n, length = some n → n = prod ls) :
    nestedCheckpointScanSized rowSize e nOut f init xs length ls
      = .ok (scan f init (reshaped rowSize e xs ls)) := by
  rcases Nat.eq_zero_or_pos rowSize with rfl | h
  · rw [nestedCheckpointScanSized_zero,
      nestedCheckpointScanOut_eq_scan nOut f init _ length ls hne hpos (by simp) hlen]
    simp [reshaped]
  · have h' : rowSize ≠ 0 := by omega
    rw [nestedCheckpointScanSized_pos _ h,
      nestedCheckpointScanOut_eq_scan nOut f init xs length ls hne hpos (hx h) hlen]
    simp [reshaped, h']

/-- the excluded point, as a theorem about the `…Sized` model: for a leaf of size `0` the leading
 length does not matter (e.g. shape `(5, 0)` with `nested_lengths = [2, 3]` runs `6` iterations) -/
theorem nestedCheckpointScanSized_zero_any_length (e : X) (nOut : Nat) (f : C → X → C × Y)
    (init : C) (xs xs' : List X) (length : Option Nat) (ls : List Nat) :
    nestedCheckpointScanSized 0 e nOut f init xs length ls
      = nestedCheckpointScanSized 0 e nOut f init xs' length ls := by
  rw [nestedCheckpointScanSized_zero, nestedCheckpointScanSized_zero]

theorem length_reshaped (rowSize : Nat) (e : X) (xs : List X) (ls : List Nat)
    (h : reshapeRejects rowSize xs.length ls = false) :
    (reshaped rowSize e xs ls).length = prod ls := by
  rcases Nat.eq_zero_or_pos rowSize with rfl | hp
  · simp [reshaped]
  · have h' : rowSize ≠ 0 := by omega
    rw [reshapeRejects_of_pos _ _ _ hp] at h
    simpa [reshaped, h'] using h

/-- pytree form: when `reshape` accepts every leaf, the call is the call on the reshaped leaves -/
theorem nestedCheckpointScanTreeSized_eq (e : X) (nOut : Nat) (f : C → List X → C × Y) (init : C)
    (leaves : List (Nat × List X)) (length : Option Nat) (ls : List Nat)
    (h : (leaves.any fun a => reshapeRejects a.1 a.2.length ls) = false) :
    nestedCheckpointScanTreeSized e nOut f init leaves length ls
      = nestedCheckpointScanTreeOut nOut f init (leaves.map fun a => reshaped a.1 e a.2 ls)
          length ls := by
  have hany : ((leaves.map fun a => reshaped a.1 e a.2 ls).any fun a => a.length != prod ls)
      = false := by
    rw [List.any_eq_false]
    intro a ha
    obtain ⟨b, hb, rfl⟩ := List.mem_map.mp ha
    have := (List.any_eq_false.mp h) b hb
    simp [length_reshaped b.1 e b.2 ls (by simpa using this)]
  simp [nestedCheckpointScanTreeSized, nestedCheckpointScanTreeOut, h, hany]

/-- pytree form, every leaf with a trailing shape of positive size: the `…TreeOut` model -/
theorem nestedCheckpointScanTreeSized_pos (e : X) (nOut : Nat) (f : C → List X → C × Y) (init : C)
    (leaves : List (Nat × List X)) (length : Option Nat) (ls : List Nat)
    (hp : ∀ a ∈ leaves, 0 < a.1) :
    nestedCheckpointScanTreeSized e nOut f init leaves length ls
      = nestedCheckpointScanTreeOut nOut f init (leaves.map (·.2)) length ls := by
  have h1 : (leaves.any fun a => reshapeRejects a.1 a.2.length ls)
      = ((leaves.map (·.2)).any fun a => a.length != prod ls) := by
    rw [List.any_map, Bool.eq_iff_iff]
    simp only [List.any_eq_true, Function.comp]
    constructor <;> rintro ⟨a, ha, h⟩ <;> refine ⟨a, ha, ?_⟩ <;>
      simpa [reshapeRejects_of_pos _ _ _ (hp a ha)] using h
  have h2 : (leaves.map fun a => reshaped a.1 e a.2 ls) = leaves.map (·.2) := by
    apply List.map_congr_left
    intro a ha
    have : a.1 ≠ 0 := by have := hp a ha; omega
    simp [reshaped, this]
  rw [nestedCheckpointScanTreeSized, nestedCheckpointScanTreeOut, h1, h2]

/-- exact characterisation of the accepted calls, pytree form, `reshape` on total sizes: only the
 leaves whose trailing shape has positive size must have `prod nested_lengths` rows -/
theorem nestedCheckpointScanTreeSized_ok_iff (e : X) (nOut : Nat) (f : C → List X → C × Y)
    (init : C) (leaves : List (Nat × List X)) (length : Option Nat) (ls : List Nat) :
    (∃ r, nestedCheckpointScanTreeSized e nOut f init leaves length ls = .ok r)
      ↔ (lengthMismatch length ls = false ∧ (∀ a ∈ leaves, 0 < a.1 → a.2.length = prod ls)
          ∧ ls ≠ [] ∧ (nOut ≠ 0 → ∀ l ∈ ls.dropLast, 0 < l)) := by
  have hiff : (leaves.any fun a => reshapeRejects a.1 a.2.length ls) = false
      ↔ ∀ a ∈ leaves, 0 < a.1 → a.2.length = prod ls := by
    rw [List.any_eq_false]
    constructor
    · intro h a ha hp
      have := h a ha
      rw [reshapeRejects_of_pos _ _ _ hp] at this
      simpa using this
    · intro h a ha
      rcases Nat.eq_zero_or_pos a.1 with h0 | hp
      · rw [h0, reshapeRejects_zero]; simp
      · rw [reshapeRejects_of_pos _ _ _ hp]; simp [h a ha hp]
  by_cases hrej : (leaves.any fun a => reshapeRejects a.1 a.2.length ls) = false
  · rw [nestedCheckpointScanTreeSized_eq e nOut f init leaves length ls hrej,
      nestedCheckpointScanTreeOut_ok_iff]
    have hall : ∀ a ∈ leaves.map (fun a => reshaped a.1 e a.2 ls), a.length = prod ls := by
      intro a ha
      obtain ⟨b, hb, rfl⟩ := List.mem_map.mp ha
      have hb' := (List.any_eq_false.mp hrej) b hb
      exact length_reshaped b.1 e b.2 ls (by simpa using hb')
    constructor
    · rintro ⟨hm, _, hne, hpos⟩
      exact ⟨hm, hiff.mp hrej, hne, hpos⟩
    · rintro ⟨hm, _, hne, hpos⟩
      exact ⟨hm, hall, hne, hpos⟩
  · constructor
    · rintro ⟨r, hr⟩
      simp only [Bool.not_eq_false] at hrej
      by_cases hm : lengthMismatch length ls = true
      · simp [nestedCheckpointScanTreeSized, hm] at hr
      · simp [nestedCheckpointScanTreeSized, hm, hrej] at hr
    · rintro ⟨_, hx, _, _⟩
      exact absurd (hiff.mpr hx) hrej

/-- non-vacuity at the excluded point: shape `(5, 0)` (five empty rows) with `nested_lengths = [2, 3]`
 is accepted and runs six iterations, as the real code does; shape `(5, 1)` is rejected; a pytree
 with a well-sized leaf and a leaf of shape `(5, 0)` is accepted -/
example : nestedCheckpointScanSized 0 ([] : List Nat) 1 (fun (c : Nat) (_ : List Nat) => (c + 1, c)) 0
    [[], [], [], [], []] none [2, 3] = .ok (6, [0, 1, 2, 3, 4, 5]) := by decide
example : nestedCheckpointScanSized 1 ([] : List Nat) 1 (fun (c : Nat) (_ : List Nat) => (c + 1, c)) 0
    [[7], [7], [7], [7], [7]] none [2, 3] = .error .typeError := by decide
example : nestedCheckpointScanSized 0 ([] : List Nat) 1 (fun (c : Nat) (_ : List Nat) => (c + 1, c)) 0
    [[], [], [], [], []] none [] = .error .indexError := by decide
example : nestedCheckpointScanTreeSized ([] : List Nat) 1
    (fun (c : Nat) (r : List (List Nat)) => (c + r.flatten.sum, c)) 0
    [(1, [[0], [1], [2], [3], [4], [5]]), (0, [[], [], [], [], []])] none [2, 3]
    = .ok (15, [0, 0, 1, 3, 6, 10]) := by decide
example : ∃ r, nestedCheckpointScanSized 0 ([] : List Nat) 1
    (fun (c : Nat) (_ : List Nat) => (c + 1, c)) 0 [[], [], [], [], []] none [2, 3] = .ok r :=
  (nestedCheckpointScanSized_ok_iff 0 _ 1 _ 0 _ none [2, 3]).mpr
    ⟨rfl, fun h => absurd h (by decide), by simp, fun _ => by decide⟩
example : nestedCheckpointScanSized 2 ([] : List Nat) 1
    (fun (c : Nat) (r : List Nat) => (c + r.sum, c)) 0 [[1, 2], [3, 4], [5, 6], [7, 8]] (some 4) [2, 2]
    = nestedCheckpointScanOut 1 (fun (c : Nat) (r : List Nat) => (c + r.sum, c)) 0
        [[1, 2], [3, 4], [5, 6], [7, 8]] (some 4) [2, 2] :=
  nestedCheckpointScanSized_pos 2 (by decide) _ 1 _ 0 _ (some 4) [2, 2]

end nested

/-! ## T14.5 `accumulate_repeated`, digital filter initialisation -/
section acc
variable {K V : Type}

/-- the scan is the left fold over the weights with carry `(state, averaged)` -/
theorem accumulateRepeated_eq_foldl [Add V] [Zero V] [SMul K V] (step : V → V) (w : List K)
    (s : V) :
    accumulateRepeated step w s
      = (w.foldl (fun (carry : V × V) weight =>
          (step carry.1, carry.2 + weight • step carry.1)) (s, 0)).2 :=
  accumulateRepeated_foldl step w s

/-- `accumulate_repeated(step, w, s) = Σ_k w[k] · step^(k+1)(s)` for every weight vector
 (empty: zero) -/
theorem accumulateRepeated_eq_sum [AddMonoid V] [SMul K V] (step : V → V) (w : List K) (s : V) :
    accumulateRepeated step w s = (w.zipIdx.map fun p => p.1 • step^[p.2 + 1] s).sum := by
  rw [accumulateRepeated_foldl, foldl_acc_eq_sum, zero_add]

/-- on a fixed point of the step the accumulation is the total weight times the state -/
theorem accumulateRepeated_fixed [Semiring K] [AddCommMonoid V] [Module K V] (step : V → V)
    (w : List K) (s : V) (h : step s = s) : accumulateRepeated step w s = w.sum • s := by
  rw [accumulateRepeated_foldl, foldl_acc_fixed _ _ _ _ h, zero_add]

example : accumulateRepeated (K := Int) (V := Int) (fun n => 2 * n) [1, 2, 3] 1 = 34 := by decide
example : accumulateRepeated (K := Int) (V := Int) (fun n => 2 * n) [] 1 = 0 := by decide

/-- the normalised weights (time 0, forward times, backward times) add up to one -/
theorem dfiWeights_normalised [Field K] (w : List K) (h : dfiTotal w ≠ 0) :
    1 / dfiTotal w + (1 + 1) * weightSum (w.map (· / dfiTotal w)) = 1 := by
  rw [weightSum_eq_sum, sum_map_div]
  have e : dfiTotal w = 1 + (1 + 1) * w.sum := by rw [dfiTotal, weightSum_eq_sum]
  field_simp
  rw [e]

variable [Field K] [AddCommGroup V] [Module K V]

/-- DFI as the defining sum: `w₀·s + Σ wₖ·forward^k(s) + Σ wₖ·backward^k(s)` with the weights
 divided by the total weight -/
theorem dfi_eq_sum (solver : ImEx K V → K → V → V) (eq : ImEx K V) (filters : List (V → V → V))
    (w : List K) (dt : K) (s : V) :
    dfiWith solver eq filters w dt s
      = (1 / dfiTotal w) • s
        + (w.zipIdx.map fun p =>
            (p.1 / dfiTotal w) • (stepWithFilters (solver eq dt) filters)^[p.2 + 1] s).sum
        + (w.zipIdx.map fun p =>
            (p.1 / dfiTotal w)
              • (stepWithFilters (solver (timeReversed eq) dt) filters)^[p.2 + 1] s).sum := by
  unfold dfiWith
  simp only [accumulateRepeated_eq_sum, zero_add, List.zipIdx_map, List.map_map]
  rfl

/-- **T14.5** a state fixed by the (filtered) forward and reversed steps is returned unchanged
 (the total weight must be non-zero, see `lanczos_total_pos`) -/
theorem dfi_steady (solver : ImEx K V → K → V → V) (eq : ImEx K V) (filters : List (V → V → V))
    (w : List K) (dt : K) (s : V)
    (hf : stepWithFilters (solver eq dt) filters s = s)
    (hb : stepWithFilters (solver (timeReversed eq) dt) filters s = s)
    (ht : dfiTotal w ≠ 0) :
    dfiWith solver eq filters w dt s = s := by
  unfold dfiWith
  simp only
  rw [accumulateRepeated_fixed _ _ _ hf, accumulateRepeated_fixed _ _ _ hb, zero_add, ← add_smul,
    ← add_smul]
  have h1 := dfiWeights_normalised w ht
  rw [weightSum_eq_sum] at h1
  have e : 1 / dfiTotal w + (w.map (· / dfiTotal w)).sum + (w.map (· / dfiTotal w)).sum = 1 := by
    linear_combination h1
  rw [e, one_smul]

/-- the same with the hypotheses on the components: the state is fixed by the two solver steps
 and by every filter of the list -/
theorem dfi_steady_list (solver : ImEx K V → K → V → V) (eq : ImEx K V)
    (filters : List (V → V → V)) (w : List K) (dt : K) (s : V)
    (hf : solver eq dt s = s) (hb : solver (timeReversed eq) dt s = s)
    (hflt : ∀ flt ∈ filters, flt s s = s) (ht : dfiTotal w ≠ 0) :
    dfiWith solver eq filters w dt s = s :=
  dfi_steady solver eq filters w dt s (stepWithFilters_fixed _ _ _ hf hflt)
    (stepWithFilters_fixed _ _ _ hb hflt) ht

/-- for `backward_forward_euler`: a steady state of the equation (`F s = 0`, resolvent fixes `s`) -/
theorem dfi_steady_bfe (eq : ImEx K V) (filters : List (V → V → V)) (w : List K) (dt : K) (s : V)
    (hF : eq.F s = 0) (hG : ∀ η, eq.Ginv s η = s)
    (hflt : ∀ flt ∈ filters, flt s s = s) (ht : dfiTotal w ≠ 0) :
    dfiWith bfe eq filters w dt s = s := by
  apply dfi_steady_list _ _ _ _ _ _ _ _ hflt ht
  · simp [bfe, hF, hG]
  · simp [bfe, timeReversed, hF, hG]

example : dfiWith bfe (⟨fun x => x - 3, fun x => 2 * (x - 3), fun x η => (x - 3) / (1 - 2 * η) + 3⟩ :
    ImEx ℚ ℚ) [fun u v => v + (v - u) / 4] [1 / 2, 1 / 4] (1 / 8) 3 = 3 :=
  dfi_steady_bfe _ _ _ _ _ (by norm_num) (by intro η; simp) (by simp) (by norm_num [dfiTotal, weightSum])

end acc

/-- `TimeReversedImExODE` is an involution -/
theorem timeReversed_involutive {K V : Type} [InvolutiveNeg K] [InvolutiveNeg V] (e : ImEx K V) :
    timeReversed (timeReversed e) = e := by
  cases e; simp [timeReversed]

section round
variable {K : Type} [Field K] [LinearOrder K] [IsStrictOrderedRing K] [FloorRing K]

theorem nearest_of_le_half (x : K) (r : Int) (h : |x - r| ≤ 1 / 2) (m : Int) :
    |x - (r : K)| ≤ |x - m| := by
  by_cases hm : m = r
  · rw [hm]
  · have h1 : (1 : Int) ≤ |m - r| := Int.one_le_abs (sub_ne_zero.mpr hm)
    have h2 : (1 : K) ≤ |(m : K) - r| := by exact_mod_cast h1
    have h3 : |(m : K) - r| ≤ |x - r| + |x - m| := by
      have : (m : K) - r = (x - r) - (x - m) := by ring
      rw [this]; exact abs_sub _ _
    linarith

/-- the model of Python's `round` returns the nearest integer, the even one at a tie -/
theorem roundHalfEven_spec (x : K) :
    let r := roundHalfEven (fun y : K => ⌊y⌋) (fun n : Int => (n : K)) (fun a b => decide (a < b)) x
    |x - (r : K)| ≤ 1 / 2 ∧ (|x - (r : K)| = 1 / 2 → Even r) ∧ ∀ m : Int, |x - (r : K)| ≤ |x - m| := by
  intro r
  have key : |x - (r : K)| ≤ 1 / 2 ∧ (|x - (r : K)| = 1 / 2 → Even r) := by
    have h0 : ((⌊x⌋ : Int) : K) ≤ x := Int.floor_le x
    have h1 : x < (⌊x⌋ : Int) + 1 := Int.lt_floor_add_one x
    have hhalf : (1 : K) / (1 + 1) = 1 / 2 := by norm_num
    simp only [r, roundHalfEven, hhalf, decide_eq_true_eq]
    split_ifs with ha hb hc
    · have : |x - (⌊x⌋ : K)| = x - ⌊x⌋ := abs_of_nonneg (by linarith)
      rw [this]
      exact ⟨by linarith, fun h => absurd h (by linarith)⟩
    · have : |x - ((⌊x⌋ + 1 : Int) : K)| = ⌊x⌋ + 1 - x := by
        push_cast; rw [abs_sub_comm]; exact abs_of_nonneg (by linarith)
      rw [this]
      exact ⟨by linarith, fun h => absurd h (by linarith)⟩
    · have hx : x - (⌊x⌋ : K) = 1 / 2 := le_antisymm (not_lt.mp hb) (not_lt.mp ha)
      have : |x - (⌊x⌋ : K)| = 1 / 2 := by rw [hx]; exact abs_of_nonneg (by norm_num)
      rw [this]
      exact ⟨le_refl _, fun _ => Int.even_iff.mpr hc⟩
    · have hx : x - (⌊x⌋ : K) = 1 / 2 := le_antisymm (not_lt.mp hb) (not_lt.mp ha)
      have : |x - ((⌊x⌋ + 1 : Int) : K)| = 1 / 2 := by
        push_cast
        have : x - ((⌊x⌋ : K) + 1) = -(1 / 2) := by linarith
        rw [this, abs_neg]; exact abs_of_nonneg (by norm_num)
      rw [this]
      refine ⟨le_refl _, fun _ => ?_⟩
      rw [Int.even_add_one, Int.even_iff]; exact hc
  exact ⟨key.1, key.2, nearest_of_le_half x r key.1⟩

example : roundHalfEven (fun y : ℚ => ⌊y⌋) (fun n : Int => (n : ℚ)) (fun a b => decide (a < b))
    (5 / 2) = 2 := by
  simp [roundHalfEven]
  norm_num

end round

/-- `np.sinc` away from zero -/
noncomputable def sincR (x : ℝ) : ℝ := Real.sin (Real.pi * x) / (Real.pi * x)

/-- every Lanczos weight is non-negative when `cutoff_period ≥ time_span > 0` -/
theorem lanczosWeights_nonneg (N : Nat) (T c : ℝ) (hT : 0 < T) (hc : T ≤ c) :
    ∀ w ∈ lanczosWeights sincR N T c, 0 ≤ w := by
  intro w hw
  simp only [lanczosWeights, List.mem_map, List.mem_range] at hw
  obtain ⟨i, hi, rfl⟩ := hw
  have hn0 : (0 : ℝ) < ((i + 1 : Nat) : ℝ) := by positivity
  have hnN : ((i + 1 : Nat) : ℝ) ≤ (N : ℝ) := by exact_mod_cast hi
  have hN1 : ((i + 1 : Nat) : ℝ) < ((N + 1 : Nat) : ℝ) := by exact_mod_cast Nat.succ_lt_succ hi
  have hN0 : (0 : ℝ) < (N : ℝ) := lt_of_lt_of_le hn0 hnN
  have hc0 : 0 < c := lt_of_lt_of_le hT hc
  apply mul_nonneg
  · have ha0 : 0 < ((i + 1 : Nat) : ℝ) / ((N + 1 : Nat) : ℝ) := div_pos hn0 (by positivity)
    have ha1 : ((i + 1 : Nat) : ℝ) / ((N + 1 : Nat) : ℝ) < 1 := by
      rw [div_lt_one (by positivity)]; exact hN1
    have hp0 : 0 < Real.pi * (((i + 1 : Nat) : ℝ) / ((N + 1 : Nat) : ℝ)) :=
      mul_pos Real.pi_pos ha0
    have hp1 : Real.pi * (((i + 1 : Nat) : ℝ) / ((N + 1 : Nat) : ℝ)) < Real.pi := by
      have := mul_lt_mul_of_pos_left ha1 Real.pi_pos
      simpa using this
    exact le_of_lt (div_pos (Real.sin_pos_of_pos_of_lt_pi hp0 hp1) hp0)
  · have hd : 0 < c * (N : ℝ) := mul_pos hc0 hN0
    have hb0 : 0 < ((i + 1 : Nat) : ℝ) * T / (c * (N : ℝ)) := div_pos (mul_pos hn0 hT) hd
    have hb1 : ((i + 1 : Nat) : ℝ) * T / (c * (N : ℝ)) ≤ 1 := by
      rw [div_le_one hd, mul_comm c]
      exact mul_le_mul hnN hc (le_of_lt hT) (le_of_lt hN0)
    have hp0 : 0 < Real.pi * (((i + 1 : Nat) : ℝ) * T / (c * (N : ℝ))) := mul_pos Real.pi_pos hb0
    have hp1 : Real.pi * (((i + 1 : Nat) : ℝ) * T / (c * (N : ℝ))) ≤ Real.pi := by
      have := mul_le_mul_of_nonneg_left hb1 (le_of_lt Real.pi_pos)
      simpa using this
    exact div_nonneg (Real.sin_nonneg_of_nonneg_of_le_pi (le_of_lt hp0) hp1) (le_of_lt hp0)

/-- for `cutoff_period ≥ time_span > 0` the total weight is at least one for every `N`, so the
 normalisation never divides by zero -/
theorem lanczos_total_pos (N : Nat) (T c : ℝ) (hT : 0 < T) (hc : T ≤ c) :
    1 ≤ dfiTotal (lanczosWeights sincR N T c) ∧ dfiTotal (lanczosWeights sincR N T c) ≠ 0 := by
  have h := List.sum_nonneg (lanczosWeights_nonneg N T c hT hc)
  have h1 : 1 ≤ dfiTotal (lanczosWeights sincR N T c) := by
    rw [dfiTotal, weightSum_eq_sum]; linarith
  exact ⟨h1, by linarith⟩

/-- **T14.5, end to end over the reals**: for `dt ≠ 0` and `cutoff_period ≥ time_span > 0`,
 `digital_filter_initialization` raises nothing and returns a state fixed by the filtered forward
 and reversed steps unchanged, for every number of steps `N = round(time_span / (2 dt))` -/
theorem dfi_steady_lanczos {V : Type} [AddCommGroup V] [Module ℝ V]
    (solver : ImEx ℝ V → ℝ → V → V) (eq : ImEx ℝ V) (filters : List (V → V → V))
    (T c dt : ℝ) (s : V) (hdt : dt ≠ 0) (hT : 0 < T) (hc : T ≤ c)
    (hf : stepWithFilters (solver eq dt) filters s = s)
    (hb : stepWithFilters (solver (timeReversed eq) dt) filters s = s) :
    digitalFilterInitialization (fun x : ℝ => decide (x = 0)) (fun y : ℝ => ⌊y⌋)
      (fun n : Int => (n : ℝ)) (fun a b => decide (a < b)) sincR solver eq filters T c dt s
      = .ok s := by
  have h2 : ((1 : ℝ) + 1) * dt ≠ 0 := mul_ne_zero (by norm_num) hdt
  simp only [digitalFilterInitialization, dfiSteps, h2, decide_false, Bool.false_eq_true, if_false]
  rw [dfi_steady solver eq filters _ dt s hf hb (lanczos_total_pos _ T c hT hc).2]

/-- non-vacuity of `dfi_steady_lanczos` (review F2, N4): its hypotheses `dt ≠ 0`, `0 < T ≤ c`, and
 a state fixed by the filtered forward / reversed backward-forward-Euler steps, on a relaxation
 equation with a non-trivial filter, `T = c = 6`, `dt = 1/2` (`N = 6` steps each way) -/
example : digitalFilterInitialization (fun x : ℝ => decide (x = 0)) (fun y : ℝ => ⌊y⌋)
    (fun n : Int => (n : ℝ)) (fun a b => decide (a < b)) sincR bfe
    (⟨fun x => x - 3, fun x => 2 * (x - 3), fun x η => (x - 3) / (1 - 2 * η) + 3⟩ : ImEx ℝ ℝ)
    [fun u v => v + (v - u) / 4] 6 6 (1 / 2) 3 = .ok 3 :=
  dfi_steady_lanczos bfe _ _ 6 6 (1 / 2) 3 (by norm_num) (by norm_num) (le_refl _)
    (by simp [stepWithFilters, applyFilters, bfe]) (by simp [stepWithFilters, applyFilters, bfe, timeReversed])

/-- non-vacuity of `dfiWeights_normalised`: its hypothesis `dfiTotal w ≠ 0` on `w = [1/2, 1/4]`
 (total `5/2`) -/
example : 1 / dfiTotal ([1 / 2, 1 / 4] : List ℚ)
    + (1 + 1) * weightSum (([1 / 2, 1 / 4] : List ℚ).map (· / dfiTotal [1 / 2, 1 / 4])) = 1 :=
  dfiWeights_normalised _ (by norm_num [dfiTotal, weightSum])

end Dino.C14
