import DinoProofs.Properties.C13
import DinoProofs.Properties.C03
