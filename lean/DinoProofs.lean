import DinoProofs.Properties.C13
import DinoProofs.Properties.C03
import DinoProofs.Properties.C06
import DinoProofs.Properties.C15
import DinoProofs.Lemmas.SH
import DinoProofs.Properties.C20
import DinoProofs.Properties.C18
import DinoProofs.Properties.C14
