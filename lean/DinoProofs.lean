import DinoProofs.Properties.C13
