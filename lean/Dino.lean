import Dino.Util
import Dino.Sigma
import Dino.SigmaDrv
