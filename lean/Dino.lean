import Dino.Util
import Dino.Sigma
import Dino.SigmaDrv
import Dino.Implicit
import Dino.ImplicitDrv
